package main

// restDefaultHeaders / restBodyVerbs: the two tables of internal/restclient/cook.go the rest model depends on,
// regenerated from the CURRENT source.
//
//   restDefaultHeaders : the composite literal assigned to `g.data.DefaultHeaders` in cookClient, in source order:
//                        (verb, [(header, value)]) — the key `http.MethodGet` is printed as "GET", …
//   restBodyVerbs      : the string slice literal assigned to `g.data.BodyHTTPMethods`
//
// Entries the extractor cannot read as literals (a table built by a loop, a computed value) are left out, so the
// agreement theorems of ShootVerif/Props/C06.lean (C06_facts_defaultHeaders, C06_facts_bodyVerbs) stop checking.

import (
	"fmt"
	"go/ast"
	"go/parser"
	"go/token"
	"path/filepath"
	"strconv"
	"strings"
)

var restVerbOfConst = map[string]string{"MethodGet": "GET", "MethodPost": "POST", "MethodPut": "PUT", "MethodPatch": "PATCH",
	"MethodDelete": "DELETE", "MethodHead": "HEAD", "MethodOptions": "OPTIONS"}

func restVerb(e ast.Expr) (string, bool) {
	switch x := e.(type) {
	case *ast.SelectorExpr:
		if v, ok := restVerbOfConst[x.Sel.Name]; ok {
			return v, true
		}
	case *ast.BasicLit:
		if x.Kind == token.STRING {
			if s, err := strconv.Unquote(x.Value); err == nil {
				return s, true
			}
		}
	}
	return "", false
}

func restStr(e ast.Expr) (string, bool) {
	if b, ok := e.(*ast.BasicLit); ok && b.Kind == token.STRING {
		if s, err := strconv.Unquote(b.Value); err == nil {
			return s, true
		}
	}
	return "", false
}

func emitRestFacts(repo string) {
	type hdr struct{ k, v string }
	type row struct {
		verb string
		hs   []hdr
	}
	var rows []row
	var bodyVerbs []string
	fset := token.NewFileSet()
	f, err := parser.ParseFile(fset, filepath.Join(repo, "internal", "restclient", "cook.go"), nil, 0)
	if err == nil {
		ast.Inspect(f, func(n ast.Node) bool {
			as, ok := n.(*ast.AssignStmt)
			if !ok || len(as.Lhs) != 1 || len(as.Rhs) != 1 {
				return true
			}
			sel, ok := as.Lhs[0].(*ast.SelectorExpr)
			if !ok {
				return true
			}
			lit, ok := as.Rhs[0].(*ast.CompositeLit)
			if !ok {
				return true
			}
			switch sel.Sel.Name {
			case "DefaultHeaders":
				for _, el := range lit.Elts {
					kv, ok := el.(*ast.KeyValueExpr)
					if !ok {
						continue
					}
					verb, ok := restVerb(kv.Key)
					inner, ok2 := kv.Value.(*ast.CompositeLit)
					if !ok || !ok2 {
						continue
					}
					r := row{verb: verb}
					for _, e2 := range inner.Elts {
						kv2, ok := e2.(*ast.KeyValueExpr)
						if !ok {
							continue
						}
						k, ok1 := restStr(kv2.Key)
						v, ok2 := restStr(kv2.Value)
						if ok1 && ok2 {
							r.hs = append(r.hs, hdr{k, v})
						}
					}
					rows = append(rows, r)
				}
			case "BodyHTTPMethods":
				for _, el := range lit.Elts {
					if v, ok := restVerb(el); ok {
						bodyVerbs = append(bodyVerbs, v)
					}
				}
			}
			return true
		})
	}
	fmt.Println("/-- the per-verb DefaultHeaders composite literal of cookClient, in source order (verb, [(header, value)]) -/")
	fmt.Println("def restDefaultHeaders : List (String × List (String × String)) := [")
	for i, r := range rows {
		var parts []string
		for _, h := range r.hs {
			parts = append(parts, fmt.Sprintf("(%s, %s)", detLeanStr(h.k), detLeanStr(h.v)))
		}
		sep := ","
		if i == len(rows)-1 {
			sep = ""
		}
		fmt.Printf("  (%s, [%s])%s\n", detLeanStr(r.verb), strings.Join(parts, ", "), sep)
	}
	fmt.Println("]")
	// package-level variables of internal/restclient (non-test files): state that would outlive one method / one type
	type pv struct{ file, name, typ string }
	var vars []pv
	if ents, err := filepath.Glob(filepath.Join(repo, "internal", "restclient", "*.go")); err == nil {
		for _, fn := range ents {
			if strings.HasSuffix(fn, "_test.go") || strings.HasSuffix(fn, "verif_export.go") {
				continue
			}
			pf, err := parser.ParseFile(fset, fn, nil, 0)
			if err != nil {
				continue
			}
			for _, d := range pf.Decls {
				gd, ok := d.(*ast.GenDecl)
				if !ok || gd.Tok != token.VAR {
					continue
				}
				for _, sp := range gd.Specs {
					vs := sp.(*ast.ValueSpec)
					typ := ""
					if vs.Type != nil {
						typ = detExprText(fset, vs.Type)
					} else if len(vs.Values) > 0 {
						typ = "= " + detExprText(fset, vs.Values[0])
					}
					for _, n := range vs.Names {
						vars = append(vars, pv{filepath.Base(fn), n.Name, typ})
					}
				}
			}
		}
	}
	fmt.Println("/-- every package-level `var` of internal/restclient (file, name, type or initialiser) -/")
	fmt.Println("def restPkgVars : List (String × String × String) := [")
	for i, v := range vars {
		sep := ","
		if i == len(vars)-1 {
			sep = ""
		}
		fmt.Printf("  (%s, %s, %s)%s\n", detLeanStr(v.file), detLeanStr(v.name), detLeanStr(v.typ), sep)
	}
	fmt.Println("]")
	fmt.Println("/-- the BodyHTTPMethods slice literal of cookClient -/")
	var bv []string
	for _, v := range bodyVerbs {
		bv = append(bv, detLeanStr(v))
	}
	fmt.Printf("def restBodyVerbs : List String := [%s]\n", strings.Join(bv, ", "))
}
