package main

// tmpl.go: def/use table of the template-local package-level symbols of the four templates (C01).
//
// A template-local symbol is an identifier of the EMITTED Go text that starts with `_` and contains a
// template action, e.g. `_{{camelCase .TypeName}}_values`. Template variables assigned with printf are
// expanded ($Marshal := printf "_json_%s" .TypeName  ==>  _json_‹.TypeName›). An occurrence is a
// definition when the previous word is const / var / type / func; otherwise a use. Every occurrence
// carries the stack of enclosing {{if}} / {{range}} / {{with}} conditions (else-branches negated).

import (
	"fmt"
	"os"
	"path/filepath"
	"sort"
	"strings"
	"text/template/parse"
	"unicode"
)

type tmplOcc struct {
	tmpl, sym string
	def       bool
	guards    []string
}

type tmplWalker struct {
	name   string
	env    map[string][]string // template variable -> possible expansions
	guards []string
	occs   []tmplOcc
	// stream state for word building
	cur      [][]string // alternatives of the current word being built: list of pieces alternatives
	prevWord string
	header   string
	sawText  bool
	gap      string // non-identifier text since the last word
	lastOcc  int    // index in occs where the occurrences of the last word start
}

const lq, rq = "‹", "›" // ‹ ›

func (w *tmplWalker) evalArg(n parse.Node) []string {
	switch a := n.(type) {
	case *parse.StringNode:
		return []string{a.Text}
	case *parse.FieldNode:
		return []string{lq + "." + strings.Join(a.Ident, ".") + rq}
	case *parse.DotNode:
		return []string{lq + "." + rq}
	case *parse.VariableNode:
		if len(a.Ident) == 1 {
			if v, ok := w.env[a.Ident[0]]; ok {
				return v
			}
		}
		return []string{lq + strings.Join(a.Ident, ".") + rq}
	case *parse.PipeNode:
		return w.evalPipe(a)
	case *parse.NumberNode:
		return []string{a.Text}
	case *parse.CommandNode:
		return w.evalCmd(a)
	}
	return []string{lq + n.String() + rq}
}

func product(parts [][]string) []string {
	out := []string{""}
	for _, alts := range parts {
		var next []string
		for _, o := range out {
			for _, a := range alts {
				next = append(next, o+a)
			}
		}
		out = next
		if len(out) > 64 {
			out = out[:64]
		}
	}
	return out
}

func (w *tmplWalker) evalCmd(c *parse.CommandNode) []string {
	if len(c.Args) == 0 {
		return []string{""}
	}
	if id, ok := c.Args[0].(*parse.IdentifierNode); ok {
		if id.Ident == "printf" && len(c.Args) >= 2 {
			if f, ok := c.Args[1].(*parse.StringNode); ok {
				segs := strings.Split(f.Text, "%s")
				var parts [][]string
				for i, s := range segs {
					parts = append(parts, []string{s})
					if i < len(segs)-1 {
						if 2+i < len(c.Args) {
							parts = append(parts, w.evalArg(c.Args[2+i]))
						} else {
							parts = append(parts, []string{lq + "?" + rq})
						}
					}
				}
				return product(parts)
			}
		}
		// other function: canonical placeholder with expanded (first alternative) arguments
		var as []string
		for _, a := range c.Args[1:] {
			as = append(as, strings.Trim(w.evalArg(a)[0], lq+rq))
		}
		return []string{lq + id.Ident + "(" + strings.Join(as, ",") + ")" + rq}
	}
	if len(c.Args) == 1 {
		return w.evalArg(c.Args[0])
	}
	return []string{lq + c.String() + rq}
}

func (w *tmplWalker) evalPipe(p *parse.PipeNode) []string {
	if p == nil || len(p.Cmds) == 0 {
		return []string{""}
	}
	if len(p.Cmds) == 1 {
		return w.evalCmd(p.Cmds[0])
	}
	return []string{lq + p.String() + rq}
}

func isIdent(r rune) bool { return r == '_' || unicode.IsLetter(r) || unicode.IsDigit(r) }

// feed one alternative-set of output text into the word builder
func (w *tmplWalker) feed(alts []string) {
	// literal text (single alternative) is scanned rune by rune; multi-alternative pieces are scanned on their
	// first alternative for structure, keeping all alternatives for the identifier part
	if len(alts) == 0 {
		return
	}
	if len(alts) == 1 {
		w.feedOne(alts[0])
		return
	}
	// split every alternative into leading identifier part + rest; require the same "rest structure" loosely
	var heads []string
	rest := ""
	for i, a := range alts {
		h := leadingIdent(a)
		heads = append(heads, h)
		if i == 0 {
			rest = a[len(h):]
		}
	}
	w.cur = append(w.cur, heads)
	if rest != "" || anyRest(alts, heads) {
		w.flush()
		w.feedOne(rest)
	}
}

func anyRest(alts, heads []string) bool {
	for i := range alts {
		if len(alts[i]) != len(heads[i]) {
			return true
		}
	}
	return false
}

func leadingIdent(s string) string {
	i := 0
	rs := []rune(s)
	in := false
	for i < len(rs) {
		if string(rs[i]) == lq {
			in = true
		} else if string(rs[i]) == rq {
			in = false
		} else if !in && !isIdent(rs[i]) {
			break
		}
		i++
	}
	return string(rs[:i])
}

func (w *tmplWalker) feedOne(s string) {
	rs := []rune(s)
	i := 0
	for i < len(rs) {
		r := rs[i]
		if string(r) == lq {
			j := i
			for j < len(rs) && string(rs[j]) != rq {
				j++
			}
			if j < len(rs) {
				j++
			}
			w.cur = append(w.cur, []string{string(rs[i:j])})
			i = j
			continue
		}
		if isIdent(r) {
			j := i
			for j < len(rs) && isIdent(rs[j]) {
				j++
			}
			w.cur = append(w.cur, []string{string(rs[i:j])})
			i = j
			continue
		}
		w.flush()
		w.gap += string(r)
		if strings.TrimSpace(w.gap) == ":=" {
			// `sym := ...` defines a (function-local) symbol
			for k := w.lastOcc; k < len(w.occs); k++ {
				w.occs[k].def = true
			}
		}
		i++
	}
}

func (w *tmplWalker) flush() {
	if len(w.cur) == 0 {
		return
	}
	words := product(w.cur)
	w.cur = nil
	w.gap = ""
	w.lastOcc = len(w.occs)
	for _, word := range words {
		if word == "" {
			continue
		}
		if strings.HasPrefix(word, "_") && len(word) > 1 && strings.Contains(word, lq) {
			def := w.prevWord == "const" || w.prevWord == "var" || w.prevWord == "type" || w.prevWord == "func"
			g := append([]string(nil), w.guards...)
			w.occs = append(w.occs, tmplOcc{w.name, word, def, g})
		}
	}
	w.prevWord = words[0]
}

func (w *tmplWalker) walk(n parse.Node) {
	switch x := n.(type) {
	case *parse.ListNode:
		if x == nil {
			return
		}
		for _, c := range x.Nodes {
			w.walk(c)
		}
	case *parse.TextNode:
		t := string(x.Text)
		if !w.sawText && strings.TrimSpace(t) != "" {
			w.sawText = true
		}
		w.feed([]string{t})
	case *parse.ActionNode:
		if len(x.Pipe.Decl) > 0 {
			name := x.Pipe.Decl[0].Ident[0]
			vals := w.evalPipe(&parse.PipeNode{Cmds: x.Pipe.Cmds})
			if x.Pipe.IsAssign {
				w.env[name] = uniq(append(append([]string(nil), w.env[name]...), vals...))
			} else {
				w.env[name] = vals
			}
			return
		}
		w.feed(w.evalPipe(x.Pipe))
	case *parse.IfNode:
		w.branch(x.Pipe.String(), x.List, x.ElseList)
	case *parse.RangeNode:
		w.branch("range "+x.Pipe.String(), x.List, x.ElseList)
	case *parse.WithNode:
		w.branch("with "+x.Pipe.String(), x.List, x.ElseList)
	}
}

func (w *tmplWalker) branch(cond string, list, elseList *parse.ListNode) {
	w.flush()
	w.guards = append(w.guards, cond)
	w.walk(list)
	w.flush()
	w.guards = w.guards[:len(w.guards)-1]
	if elseList != nil {
		w.guards = append(w.guards, "!("+cond+")")
		w.walk(elseList)
		w.flush()
		w.guards = w.guards[:len(w.guards)-1]
	}
}

func uniq(xs []string) []string {
	seen := map[string]bool{}
	var out []string
	for _, x := range xs {
		if !seen[x] {
			seen[x] = true
			out = append(out, x)
		}
	}
	return out
}

// first emitted line of the template (actions as placeholders)
func tmplHeaderLine(tree *parse.Tree) string {
	var sb strings.Builder
	var rec func(n parse.Node) bool
	rec = func(n parse.Node) bool {
		switch x := n.(type) {
		case *parse.ListNode:
			for _, c := range x.Nodes {
				if rec(c) {
					return true
				}
			}
		case *parse.TextNode:
			sb.Write(x.Text)
			if strings.Contains(strings.TrimLeft(sb.String(), " \t\n"), "\n") {
				return true
			}
		case *parse.ActionNode:
			if len(x.Pipe.Decl) == 0 {
				sb.WriteString(lq + x.Pipe.String() + rq)
			}
		case *parse.IfNode, *parse.RangeNode, *parse.WithNode:
			if strings.TrimSpace(sb.String()) != "" {
				return true
			}
		}
		return false
	}
	rec(tree.Root)
	s := strings.TrimLeft(sb.String(), " \t\n")
	if i := strings.Index(s, "\n"); i >= 0 {
		s = s[:i]
	}
	return strings.TrimRight(s, " \t")
}

func emitTmpl(repo string) {
	files, _ := filepath.Glob(filepath.Join(repo, "internal", "*", "*.tmpl"))
	sort.Strings(files)
	var occs []tmplOcc
	var headers [][2]string
	for _, f := range files {
		b, err := os.ReadFile(f)
		if err != nil {
			fmt.Fprintln(os.Stderr, "facts: ", err)
			os.Exit(1)
		}
		name := strings.TrimSuffix(filepath.Base(f), ".tmpl")
		tr := parse.New(name)
		tr.Mode = parse.SkipFuncCheck
		set := map[string]*parse.Tree{}
		tree, err := tr.Parse(string(b), "", "", set)
		if err != nil {
			fmt.Fprintln(os.Stderr, "facts: template does not parse:", f, err)
			os.Exit(1)
		}
		w := &tmplWalker{name: name, env: map[string][]string{}}
		w.walk(tree.Root)
		w.flush()
		occs = append(occs, w.occs...)
		headers = append(headers, [2]string{name, tmplHeaderLine(tree)})
	}
	// de-duplicate occurrences
	seen := map[string]bool{}
	fmt.Println("\n/-- (template, symbol, isDefinition, enclosing guards): package-level template-local symbols -/")
	fmt.Println("def tmplSyms : List (String × String × Bool × List String) := [")
	first := true
	for _, o := range occs {
		key := fmt.Sprintf("%s|%s|%v|%s", o.tmpl, o.sym, o.def, strings.Join(o.guards, "&"))
		if seen[key] {
			continue
		}
		seen[key] = true
		var gs []string
		for _, g := range o.guards {
			gs = append(gs, leanStr(g))
		}
		sep := ","
		if first {
			sep = " "
			first = false
		}
		fmt.Printf("  %s(%s, %s, %v, [%s])\n", sep, leanStr(o.tmpl), leanStr(o.sym), o.def, strings.Join(gs, ", "))
	}
	fmt.Println("]")
	fmt.Println("\n/-- (template, first emitted line) -/")
	fmt.Println("def tmplHeaders : List (String × String) := [")
	for i, h := range headers {
		sep := ","
		if i == 0 {
			sep = " "
		}
		fmt.Printf("  %s(%s, %s)\n", sep, leanStr(h[0]), leanStr(h[1]))
	}
	fmt.Println("]")
}
