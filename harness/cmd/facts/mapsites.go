package main

// mapRangeSites: every `for … := range <expr>` whose <expr> has a map type (go/types), in the non-test code of
// cmd/shoot and internal/..., keyed by (package dir, enclosing function, expression text) — not by line, so that
// unrelated edits do not move a site. The fourth component counts the occurrences of the same key.
//
// Used by ShootVerif/Props/C07.lean: every site must have an order-independence lemma or be listed as a finding.

import (
	"fmt"
	"go/ast"
	"go/types"
	"os"
	"path/filepath"
	"sort"
	"strings"

	"golang.org/x/tools/go/packages"
)

type mrSite struct{ pkg, fn, expr string }

func detFuncName(fd *ast.FuncDecl) string {
	if fd.Recv == nil || len(fd.Recv.List) == 0 {
		return fd.Name.Name
	}
	t := fd.Recv.List[0].Type
	star := ""
	if s, ok := t.(*ast.StarExpr); ok {
		t = s.X
		star = "*"
	}
	name := "?"
	switch v := t.(type) {
	case *ast.Ident:
		name = v.Name
	case *ast.IndexExpr:
		if id, ok := v.X.(*ast.Ident); ok {
			name = id.Name
		}
	case *ast.IndexListExpr:
		if id, ok := v.X.(*ast.Ident); ok {
			name = id.Name
		}
	}
	return "(" + star + name + ")." + fd.Name.Name
}

func emitMapSites(repo string) {
	cfg := &packages.Config{
		Mode:  packages.NeedName | packages.NeedFiles | packages.NeedSyntax | packages.NeedTypes | packages.NeedTypesInfo,
		Dir:   repo,
		Tests: false,
	}
	pkgs, err := packages.Load(cfg, "./cmd/shoot/...", "./internal/...")
	if err != nil {
		fmt.Fprintln(os.Stderr, "facts: mapsites:", err)
		os.Exit(1)
	}
	count := map[mrSite]int{}
	env := map[mrSite]int{}
	// what the body of a range over a map writes into maps: for every assignment `m[…][idx] = …` in the body, the text of the
	// (last) index expression, next to the name of the range key variable.  A "distinct keys" argument (dst[k] = v for the distinct
	// keys k of the ranged map) needs idx to BE the key variable: `dst[f(k)] = v` lets two entries collide and the order decide
	keyVar := map[mrSite]string{}
	bodyIdx := map[mrSite][]string{}
	// other ways for a run to depend on anything but its inputs: goroutines, select, clock, random numbers, process
	// identity, environment, working directory
	watch := map[string]bool{"time.Now": true, "time.Since": true, "time.Until": true, "os.Getpid": true, "os.Getppid": true,
		"os.Getenv": true, "os.LookupEnv": true, "os.Environ": true, "os.Hostname": true, "os.Getwd": true, "os.UserHomeDir": true,
		"os.TempDir": true, "os.Executable": true, "filepath.Abs": true, "build.Import": true, "build.ImportDir": true}
	for _, p := range pkgs {
		if len(p.Errors) > 0 {
			fmt.Fprintln(os.Stderr, "facts: mapsites: package errors in", p.PkgPath, p.Errors[0])
			os.Exit(1)
		}
		for _, f := range p.Syntax {
			file := p.Fset.Position(f.Pos()).Filename
			if strings.HasSuffix(file, "_test.go") {
				continue
			}
			rel, _ := filepath.Rel(repo, filepath.Dir(file))
			for _, decl := range f.Decls {
				fd, ok := decl.(*ast.FuncDecl)
				var scope ast.Node = decl
				name := "<package>"
				if ok {
					if fd.Body == nil {
						continue
					}
					name = detFuncName(fd)
				}
				ast.Inspect(scope, func(n ast.Node) bool {
					switch v := n.(type) {
					case *ast.GoStmt:
						env[mrSite{rel, name, "go"}]++
					case *ast.SelectStmt:
						env[mrSite{rel, name, "select"}]++
					case *ast.CallExpr:
						if sel, ok := v.Fun.(*ast.SelectorExpr); ok {
							// `<build.Context>.Import / ImportDir`: the directory look-up of go/build through a context value
							if s, ok := p.TypesInfo.Selections[sel]; ok {
								if f, ok := s.Obj().(*types.Func); ok && f.Pkg() != nil && f.Pkg().Path() == "go/build" && (f.Name() == "Import" || f.Name() == "ImportDir") {
									env[mrSite{rel, name, "build.Context." + f.Name()}]++
								}
							}
							if id, ok := sel.X.(*ast.Ident); ok {
								if pn, ok := p.TypesInfo.Uses[id].(*types.PkgName); ok {
									full := pn.Imported().Name() + "." + sel.Sel.Name
									if watch[full] || pn.Imported().Path() == "math/rand" || pn.Imported().Path() == "math/rand/v2" || pn.Imported().Path() == "crypto/rand" {
										env[mrSite{rel, name, full}]++
									}
								}
							}
						}
					}
					rs, ok := n.(*ast.RangeStmt)
					if !ok {
						return true
					}
					t := p.TypesInfo.TypeOf(rs.X)
					if t == nil {
						return true
					}
					if _, ok := t.Underlying().(*types.Map); ok {
						site := mrSite{rel, name, detExprText(p.Fset, rs.X)}
						count[site]++
						kv := "_"
						if id, ok := rs.Key.(*ast.Ident); ok {
							kv = id.Name
						}
						keyVar[site] = kv
						ast.Inspect(rs.Body, func(b ast.Node) bool {
							as, ok := b.(*ast.AssignStmt)
							if !ok {
								return true
							}
							for _, l := range as.Lhs {
								if ix, ok := l.(*ast.IndexExpr); ok {
									if xt := p.TypesInfo.TypeOf(ix.X); xt != nil {
										if _, ok := xt.Underlying().(*types.Map); ok {
											bodyIdx[site] = append(bodyIdx[site], detExprText(p.Fset, ix.Index))
										}
									}
								}
							}
							return true
						})
					}
					return true
				})
			}
		}
	}
	var sites []mrSite
	for s := range count {
		sites = append(sites, s)
	}
	sort.Slice(sites, func(i, j int) bool {
		a, b := sites[i], sites[j]
		if a.pkg != b.pkg {
			return a.pkg < b.pkg
		}
		if a.fn != b.fn {
			return a.fn < b.fn
		}
		return a.expr < b.expr
	})
	fmt.Println("\n/-- (package, enclosing function, ranged expression, occurrences) of every range over a map -/")
	fmt.Println("def mapRangeSites : List (String × String × String × Nat) := [")
	for i, s := range sites {
		sep := ","
		if i == len(sites)-1 {
			sep = ""
		}
		fmt.Printf("  (%s, %s, %s, %d)%s\n", detLeanStr(s.pkg), detLeanStr(s.fn), detLeanStr(s.expr), count[s], sep)
	}
	fmt.Println("]")
	fmt.Println("\n/-- (package, enclosing function, ranged expression, key variable, index expressions of the map assignments in the body) -/")
	fmt.Println("def mapRangeBody : List (String × String × String × String × List String) := [")
	for i, s := range sites {
		sep := ","
		if i == len(sites)-1 {
			sep = ""
		}
		var qs []string
		for _, x := range bodyIdx[s] {
			qs = append(qs, detLeanStr(x))
		}
		fmt.Printf("  (%s, %s, %s, %s, [%s])%s\n", detLeanStr(s.pkg), detLeanStr(s.fn), detLeanStr(s.expr), detLeanStr(keyVar[s]), strings.Join(qs, ", "), sep)
	}
	fmt.Println("]")
	var es []mrSite
	for s := range env {
		es = append(es, s)
	}
	sort.Slice(es, func(i, j int) bool {
		a, b := es[i], es[j]
		if a.pkg != b.pkg {
			return a.pkg < b.pkg
		}
		if a.fn != b.fn {
			return a.fn < b.fn
		}
		return a.expr < b.expr
	})
	fmt.Println("\n/-- (package, enclosing function, construct) of every goroutine / select / clock / random / process / environment / working-directory use -/")
	fmt.Println("def envSites : List (String × String × String) := [")
	for i, s := range es {
		sep := ","
		if i == len(es)-1 {
			sep = ""
		}
		fmt.Printf("  (%s, %s, %s)%s\n", detLeanStr(s.pkg), detLeanStr(s.fn), detLeanStr(s.expr), sep)
	}
	fmt.Println("]")
}
