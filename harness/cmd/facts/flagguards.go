package main

// flagGuards: for every call, inside the four generator packages (internal/constructor, enumer, restclient, mapper), of a
// function or method DECLARED IN THE SAME PACKAGE: the command-line-flag conditions under which the call is reached inside its
// enclosing function. A condition counts when the call sits in the body of an `if` whose condition mentions `flags.` (recorded
// as the condition text), in its else branch (recorded as "!(cond)"), or AFTER an `if cond { …return/continue/break/Fatal }`
// early exit in the same statement list (recorded as "!(cond)"). Conditions that do not mention `flags.` are left out: the table
// says which directive parsers / data builders run under which flag, which is what the models of the `new` area assume
// (defaults and parameter selection are read whatever the flags; accessor directives only with -getset; json tags only with
// -json; option data only with -opt).
//
// Also flagReads: every place where a field of the flags struct is READ (package, enclosing function, flag), so that a new
// dependence of a function on a flag is visible as a new row.

import (
	"bytes"
	"fmt"
	"go/ast"
	"go/printer"
	"sort"
	"strings"
)

type flagGuard struct {
	pkg, fn, callee string
	conds          []string
}

var guardPkgs = map[string]bool{
	"internal/constructor": true, "internal/enumer": true, "internal/restclient": true, "internal/mapper": true,
}

func (t *srcTree) exprText(e ast.Expr) string {
	var b bytes.Buffer
	_ = printer.Fprint(&b, t.fset, e)
	return strings.Join(strings.Fields(b.String()), " ")
}

func terminates(b *ast.BlockStmt) bool {
	if b == nil || len(b.List) == 0 {
		return false
	}
	switch s := b.List[len(b.List)-1].(type) {
	case *ast.ReturnStmt:
		return true
	case *ast.BranchStmt:
		return s.Tok.String() == "continue" || s.Tok.String() == "break" || s.Tok.String() == "goto"
	case *ast.ExprStmt:
		if c, ok := s.X.(*ast.CallExpr); ok {
			if sel, ok := c.Fun.(*ast.SelectorExpr); ok {
				n := sel.Sel.Name
				return strings.HasPrefix(n, "Fatal") || n == "Exit" || n == "Panic" || n == "Panicf"
			}
			if id, ok := c.Fun.(*ast.Ident); ok {
				return id.Name == "panic"
			}
		}
	}
	return false
}

func collectFlagGuards(t *srcTree) ([]flagGuard, [][3]string) {
	// functions declared per package directory
	declared := map[string]map[string]bool{}
	dirOf := func(sf *srcFile) string {
		i := strings.LastIndex(sf.rel, "/")
		if i < 0 {
			return ""
		}
		return sf.rel[:i]
	}
	for _, fn := range t.funcs {
		d := dirOf(fn.f)
		if declared[d] == nil {
			declared[d] = map[string]bool{}
		}
		declared[d][fn.name] = true
	}
	var out []flagGuard
	var reads [][3]string
	for _, fn := range t.funcs {
		dir := dirOf(fn.f)
		if !guardPkgs[dir] {
			continue
		}
		fn := fn
		var walkStmts func(list []ast.Stmt, conds []string)
		var walkStmt func(s ast.Stmt, conds []string)
		var walkExpr func(e ast.Node, conds []string)
		walkExpr = func(e ast.Node, conds []string) {
			if e == nil {
				return
			}
			ast.Inspect(e, func(n ast.Node) bool {
				switch x := n.(type) {
				case *ast.FuncLit:
					walkStmts(x.Body.List, conds)
					return false
				case *ast.SelectorExpr:
					if in, ok := x.X.(*ast.SelectorExpr); ok && in.Sel.Name == "flags" {
						reads = append(reads, [3]string{dir, fn.name, x.Sel.Name})
					} else if id, ok := x.X.(*ast.Ident); ok && id.Name == "flags" {
						reads = append(reads, [3]string{dir, fn.name, x.Sel.Name})
					}
				case *ast.CallExpr:
					_, name, q := fn.f.calleeOf(x)
					if !q && name != "" && declared[dir][name] {
						var fc []string
						for _, c := range conds {
							if strings.Contains(c, "flags.") {
								fc = append(fc, c)
							}
						}
						out = append(out, flagGuard{dir, fn.name, name, fc})
					}
				}
				return true
			})
		}
		walkStmts = func(list []ast.Stmt, conds []string) {
			cur := append([]string(nil), conds...)
			for _, s := range list {
				walkStmt(s, cur)
				if is, ok := s.(*ast.IfStmt); ok && is.Else == nil && terminates(is.Body) {
					cur = append(append([]string(nil), cur...), "!("+t.exprText(is.Cond)+")")
				}
			}
		}
		walkStmt = func(s ast.Stmt, conds []string) {
			switch x := s.(type) {
			case nil:
			case *ast.BlockStmt:
				walkStmts(x.List, conds)
			case *ast.IfStmt:
				if x.Init != nil {
					walkStmt(x.Init, conds)
				}
				walkExpr(x.Cond, conds)
				c := t.exprText(x.Cond)
				walkStmts(x.Body.List, append(append([]string(nil), conds...), c))
				if x.Else != nil {
					walkStmt(x.Else, append(append([]string(nil), conds...), "!("+c+")"))
				}
			case *ast.ForStmt:
				walkStmt(x.Init, conds)
				walkExpr(x.Cond, conds)
				walkStmt(x.Post, conds)
				walkStmts(x.Body.List, conds)
			case *ast.RangeStmt:
				walkExpr(x.X, conds)
				walkStmts(x.Body.List, conds)
			case *ast.SwitchStmt:
				walkStmt(x.Init, conds)
				walkExpr(x.Tag, conds)
				for _, cc := range x.Body.List {
					cl := cc.(*ast.CaseClause)
					var cs []string
					for _, e := range cl.List {
						walkExpr(e, conds)
						cs = append(cs, t.exprText(e))
					}
					inner := conds
					if x.Tag == nil && len(cs) > 0 {
						inner = append(append([]string(nil), conds...), strings.Join(cs, " || "))
					}
					walkStmts(cl.Body, inner)
				}
			case *ast.TypeSwitchStmt:
				walkStmt(x.Init, conds)
				walkStmt(x.Assign, conds)
				for _, cc := range x.Body.List {
					walkStmts(cc.(*ast.CaseClause).Body, conds)
				}
			case *ast.SelectStmt:
				for _, cc := range x.Body.List {
					walkStmts(cc.(*ast.CommClause).Body, conds)
				}
			case *ast.LabeledStmt:
				walkStmt(x.Stmt, conds)
			default:
				walkExpr(s, conds)
			}
		}
		walkStmts(fn.decl.Body.List, nil)
	}
	sort.SliceStable(out, func(i, j int) bool {
		a, b := out[i], out[j]
		if a.pkg != b.pkg {
			return a.pkg < b.pkg
		}
		if a.fn != b.fn {
			return a.fn < b.fn
		}
		if a.callee != b.callee {
			return a.callee < b.callee
		}
		return strings.Join(a.conds, "&") < strings.Join(b.conds, "&")
	})
	// drop exact duplicates
	var ded []flagGuard
	for i, g := range out {
		if i > 0 && out[i-1].pkg == g.pkg && out[i-1].fn == g.fn && out[i-1].callee == g.callee &&
			strings.Join(out[i-1].conds, "&") == strings.Join(g.conds, "&") {
			continue
		}
		ded = append(ded, g)
	}
	sort.Slice(reads, func(i, j int) bool {
		for k := 0; k < 3; k++ {
			if reads[i][k] != reads[j][k] {
				return reads[i][k] < reads[j][k]
			}
		}
		return false
	})
	var dr [][3]string
	for i, r := range reads {
		if i > 0 && reads[i-1] == r {
			continue
		}
		dr = append(dr, r)
	}
	return ded, dr
}

func emitFlagGuards(t *srcTree) {
	gs, reads := collectFlagGuards(t)
	fmt.Println("/-- calls of package-local functions in the generator packages with the flag conditions they are reached under")
	fmt.Println("    (package dir, enclosing function, callee, conditions mentioning `flags.`) -/")
	fmt.Println("def flagGuards : List (String × String × String × List String) := [")
	for i, g := range gs {
		sep := ","
		if i == len(gs)-1 {
			sep = ""
		}
		var cs []string
		for _, c := range g.conds {
			cs = append(cs, leanStr(c))
		}
		fmt.Printf("  (%s, %s, %s, [%s])%s\n", leanStr(g.pkg), leanStr(g.fn), leanStr(g.callee), strings.Join(cs, ", "), sep)
	}
	fmt.Println("]")
	fmt.Println("/-- every read of a field of a generator's flags struct (package dir, enclosing function, flag) -/")
	fmt.Println("def flagReads : List (String × String × String) := [")
	for i, r := range reads {
		sep := ","
		if i == len(reads)-1 {
			sep = ""
		}
		fmt.Printf("  (%s, %s, %s)%s\n", leanStr(r[0]), leanStr(r[1]), leanStr(r[2]), sep)
	}
	fmt.Println("]")
}
