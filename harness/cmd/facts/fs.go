package main

// fsCalls: every call to a file-mutating os.* function (and to a mutating method of a file obtained
// from os.Create/CreateTemp/OpenFile in the same function) in cmd/ and internal/ non-test code,
// with package and enclosing function. Used by C17 (the model's op alphabet is complete) and C18.

import (
	"fmt"
	"go/ast"
	"sort"
)

var mutatingOS = map[string]bool{
	"Create": true, "CreateTemp": true, "OpenFile": true, "WriteFile": true, "Remove": true, "RemoveAll": true,
	"Rename": true, "Mkdir": true, "MkdirAll": true, "MkdirTemp": true, "Chmod": true, "Chown": true, "Lchown": true,
	"Chtimes": true, "Truncate": true, "Link": true, "Symlink": true, "CopyFS": true,
}
var mutatingIoutil = map[string]bool{"WriteFile": true, "TempFile": true, "TempDir": true}
var fileCtors = map[string]bool{"Create": true, "CreateTemp": true, "OpenFile": true}
var mutatingFileMethods = map[string]bool{
	"Write": true, "WriteString": true, "WriteAt": true, "ReadFrom": true, "Truncate": true, "Chmod": true, "Chown": true,
	"Sync": true, "Close": true, "WriteTo": false,
}

type fsCall struct{ pkg, fn, callee string }

func collectFsCalls(t *srcTree) []fsCall {
	var out []fsCall
	for _, fn := range t.funcs {
		// identifiers bound to a file opened for writing in this function
		fileVars := map[string]bool{}
		ast.Inspect(fn.decl.Body, func(n ast.Node) bool {
			as, ok := n.(*ast.AssignStmt)
			if !ok || len(as.Rhs) != 1 {
				return true
			}
			call, ok := as.Rhs[0].(*ast.CallExpr)
			if !ok {
				return true
			}
			path, name, q := fn.f.calleeOf(call)
			if q && (path == "os" && fileCtors[name] || path == "io/ioutil" && name == "TempFile") {
				if id, ok := as.Lhs[0].(*ast.Ident); ok {
					fileVars[id.Name] = true
				}
			}
			return true
		})
		ast.Inspect(fn.decl.Body, func(n ast.Node) bool {
			call, ok := n.(*ast.CallExpr)
			if !ok {
				return true
			}
			path, name, q := fn.f.calleeOf(call)
			switch {
			case q && path == "os" && mutatingOS[name]:
				out = append(out, fsCall{fn.f.pkg, fn.name, "os." + name})
			case q && path == "io/ioutil" && mutatingIoutil[name]:
				out = append(out, fsCall{fn.f.pkg, fn.name, "ioutil." + name})
			case !q:
				if sel, ok := call.Fun.(*ast.SelectorExpr); ok {
					if id, ok := sel.X.(*ast.Ident); ok && fileVars[id.Name] && mutatingFileMethods[name] {
						out = append(out, fsCall{fn.f.pkg, fn.name, "(*os.File)." + name})
					}
				}
			}
			return true
		})
	}
	sort.SliceStable(out, func(i, j int) bool {
		if out[i].pkg != out[j].pkg {
			return out[i].pkg < out[j].pkg
		}
		if out[i].fn != out[j].fn {
			return out[i].fn < out[j].fn
		}
		return out[i].callee < out[j].callee
	})
	return out
}

func emitFs(t *srcTree) {
	calls := collectFsCalls(t)
	fmt.Println("/-- every call to a file-mutating os function in cmd/ and internal/ (package, enclosing function, callee) -/")
	fmt.Println("def fsCalls : List (String × String × String) := [")
	for i, c := range calls {
		sep := ","
		if i == len(calls)-1 {
			sep = ""
		}
		fmt.Printf("  (%s, %s, %s)%s\n", leanStr(c.pkg), leanStr(c.fn), leanStr(c.callee), sep)
	}
	fmt.Println("]")
}
