package main

func emitAll(repo string) {}
