package main

// emitAll prints the facts tables (Lean definitions in namespace ShootVerif.Facts). Each area keeps its
// tables in its own file of this directory and adds one call here.
func emitAll(repo string) {
	// driver area (C17, C18): srcwalk.go, fs.go (fsCalls), fatal.go (fatalSites, panicSites)
	t := loadTree(repo)
	emitFs(t)
	emitFatal(t)
	emitListIdx(t)      // listidx.go: listIndexSites (C18)
	emitAstIndex(t)     // listidx.go: astIndexSites (C18)
	emitPhases(t)       // phases.go: mainPhases, phaseCallSites (C17, C18)
	emitCleanReads(t)   // phases.go: cleanReadSites (C17)
	emitPatternSites(t) // phases.go: patternSites (C18)
	// determinism area (C08, C07): genstate.go, mapsites.go
	emitGenState(repo)
	emitMapSites(repo)
	emitDetInput(repo)   // detinput.go: mergeImportKey, tmplTopDecls, enumConstRule
	emitReadSites(t)     // readsites.go: readSites (C07)
	emitFileFlagSites(t) // readsites.go: fileFlagSites (C08)
	emitSortSites(t)     // readsites.go: sortSites (C07)
	// C01: tmpl.go (tmplSyms, tmplHeaders)
	emitTmpl(repo)
	// rest area (C06): restfacts.go (restDefaultHeaders, restBodyVerbs)
	emitRestFacts(repo)
	// `new` area and every generator package: flagguards.go (flagGuards, flagReads)
	emitFlagGuards(t)
	// C11 / C01: jsonshadow.go (jsonShadowRefs)
	emitJSONShadow(repo)
}
