package main

func emitAll(repo string) {
	emitGenState(repo) // genstate.go: genStateFields, genStateWrites (C08)
	emitMapSites(repo) // mapsites.go: mapRangeSites (C07)
}
