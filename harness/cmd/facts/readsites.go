package main

// readSites (C07): every place where the shipped tool looks at the file system other than to write its output:
// calls of os.Open/OpenFile/ReadFile/ReadDir/Stat/Lstat/Readlink/DirFS, ioutil.ReadFile/ReadDir,
// filepath.Glob/Walk/WalkDir/EvalSymlinks, parser.ParseDir, parser.ParseFile with a nil source, packages.Load,
// build.Import/ImportDir, in cmd/ and internal/ non-test code - with the directory of the file and the enclosing function.
// The C07 model says what a run writes is `generate(hand-written sources, command line)` whatever the directory holds:
// a new read of the directory (e.g. of the previous output, to decide whether to write at all) shows up here.

import (
	"fmt"
	"go/ast"
	"path/filepath"
	"sort"
)

var readFuncs = map[string]map[string]bool{
	"os":                              {"Open": true, "OpenFile": true, "ReadFile": true, "ReadDir": true, "Stat": true, "Lstat": true, "Readlink": true, "DirFS": true, "OpenRoot": true},
	"io/ioutil":                       {"ReadFile": true, "ReadDir": true},
	"io/fs":                           {"ReadFile": true, "ReadDir": true, "Stat": true, "WalkDir": true, "Glob": true},
	"path/filepath":                   {"Glob": true, "Walk": true, "WalkDir": true, "EvalSymlinks": true},
	"go/parser":                       {"ParseDir": true, "ParseFile": true},
	"golang.org/x/tools/go/packages":  {"Load": true},
	"go/build":                        {"Import": true, "ImportDir": true},
	"golang.org/x/tools/go/buildutil": {"ContainingPackage": true},
}

func emitReadSites(t *srcTree) {
	type site struct{ dir, fn, callee string }
	var out []site
	for _, fn := range t.funcs {
		ast.Inspect(fn.decl.Body, func(n ast.Node) bool {
			call, ok := n.(*ast.CallExpr)
			if !ok {
				return true
			}
			path, name, q := fn.f.calleeOf(call)
			if !q {
				// a method call `<ctxt>.Import(path, srcDir, mode)` / `.ImportDir(dir, mode)` in a file that imports go/build: the
				// same directory look-up as build.Import, through a build.Context value
				if sel, ok := call.Fun.(*ast.SelectorExpr); ok && (sel.Sel.Name == "Import" && len(call.Args) == 3 || sel.Sel.Name == "ImportDir" && len(call.Args) == 2) {
					for _, ip := range fn.f.imports {
						if ip == "go/build" {
							out = append(out, site{filepath.ToSlash(filepath.Dir(fn.f.rel)), fn.name, "build.Context." + sel.Sel.Name})
							break
						}
					}
				}
				return true
			}
			if !readFuncs[path][name] {
				return true
			}
			callee := filepath.Base(path) + "." + name
			if path == "go/parser" && name == "ParseFile" {
				// ParseFile(fset, filename, src, mode) reads the file only when src is nil
				if len(call.Args) >= 3 {
					if id, ok := call.Args[2].(*ast.Ident); !ok || id.Name != "nil" {
						return true
					}
				}
				callee += "(nil)"
			}
			out = append(out, site{filepath.ToSlash(filepath.Dir(fn.f.rel)), fn.name, callee})
			return true
		})
	}
	sort.SliceStable(out, func(i, j int) bool {
		if out[i].dir != out[j].dir {
			return out[i].dir < out[j].dir
		}
		if out[i].fn != out[j].fn {
			return out[i].fn < out[j].fn
		}
		return out[i].callee < out[j].callee
	})
	fmt.Println("/-- (directory, enclosing function, callee) of every call that READS the file system (open / stat / glob / parse-from-disk / package load) -/")
	fmt.Println("def readSites : List (String × String × String) := [")
	for i, s := range out {
		sep := ","
		if i == len(out)-1 {
			sep = ""
		}
		fmt.Printf("  (%s, %s, %s)%s\n", leanStr(s.dir), leanStr(s.fn), leanStr(s.callee), sep)
	}
	fmt.Println("]")
	fmt.Println()
}

// fileFlagSites (C08): every place that looks at the `-file=` value: selections of the CommonFlags field `FileName` and calls
// of `TestFile` (directory, enclosing function, what). The C08 model says `-file=F` only decides WHICH types are listed and how
// the output file is named; how a listed type is generated does not see the flag (so the all-in-one output is the merge of the
// one-at-a-time outputs): a new use of the flag inside a per-type step (e.g. to narrow the files constants are collected from)
// shows up here.
func emitFileFlagSites(t *srcTree) {
	type site struct{ dir, fn, what string }
	seen := map[site]bool{}
	var out []site
	for _, fn := range t.funcs {
		name := fn.name
		if fn.recv != "" {
			name = "(" + fn.recv + ")." + fn.name
		}
		ast.Inspect(fn.decl.Body, func(n ast.Node) bool {
			var what string
			switch v := n.(type) {
			case *ast.SelectorExpr:
				if v.Sel.Name == "FileName" {
					what = "FileName"
				}
			case *ast.CallExpr:
				if sel, ok := v.Fun.(*ast.SelectorExpr); ok && sel.Sel.Name == "TestFile" {
					what = "TestFile"
				}
			}
			if what != "" {
				s := site{filepath.ToSlash(filepath.Dir(fn.f.rel)), name, what}
				if !seen[s] {
					seen[s] = true
					out = append(out, s)
				}
			}
			return true
		})
	}
	sort.SliceStable(out, func(i, j int) bool {
		if out[i].dir != out[j].dir {
			return out[i].dir < out[j].dir
		}
		if out[i].fn != out[j].fn {
			return out[i].fn < out[j].fn
		}
		return out[i].what < out[j].what
	})
	fmt.Println("/-- (directory, enclosing function, FileName | TestFile) of every use of the `-file=` value -/")
	fmt.Println("def fileFlagSites : List (String × String × String) := [")
	for i, s := range out {
		sep := ","
		if i == len(out)-1 {
			sep = ""
		}
		fmt.Printf("  (%s, %s, %s)%s\n", leanStr(s.dir), leanStr(s.fn), leanStr(s.what), sep)
	}
	fmt.Println("]")
	fmt.Println()
}

// sortSites (C07/C08): every call into package sort / slices.Sort* (directory, enclosing function, callee). The models process
// the types of an all-in-one run in DECLARATION order (with -getset the order decides which accessor interfaces an embedder
// sees) and keep every other list in source order unless one of these sites sorts it: a new sort shows up here.
func emitSortSites(t *srcTree) {
	type site struct{ dir, fn, callee string }
	var out []site
	for _, fn := range t.funcs {
		name := fn.name
		if fn.recv != "" {
			name = "(" + fn.recv + ")." + fn.name
		}
		ast.Inspect(fn.decl.Body, func(n ast.Node) bool {
			call, ok := n.(*ast.CallExpr)
			if !ok {
				return true
			}
			path, cn, q := fn.f.calleeOf(call)
			if q && (path == "sort" || (path == "slices" && len(cn) >= 4 && cn[:4] == "Sort")) {
				out = append(out, site{filepath.ToSlash(filepath.Dir(fn.f.rel)), name, filepath.Base(path) + "." + cn})
			}
			return true
		})
	}
	sort.SliceStable(out, func(i, j int) bool {
		if out[i].dir != out[j].dir {
			return out[i].dir < out[j].dir
		}
		if out[i].fn != out[j].fn {
			return out[i].fn < out[j].fn
		}
		return out[i].callee < out[j].callee
	})
	fmt.Println("/-- (directory, enclosing function, callee) of every call into package sort -/")
	fmt.Println("def sortSites : List (String × String × String) := [")
	for i, s := range out {
		sep := ","
		if i == len(out)-1 {
			sep = ""
		}
		fmt.Printf("  (%s, %s, %s)%s\n", leanStr(s.dir), leanStr(s.fn), leanStr(s.callee), sep)
	}
	fmt.Println("]")
	fmt.Println()
}
