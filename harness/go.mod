module github.com/lopolopen/shoot/verifharness

go 1.24.0

toolchain go1.24.6

require (
	github.com/lopolopen/shoot v0.0.0
	golang.org/x/tools v0.41.0
)

require (
	golang.org/x/mod v0.32.0 // indirect
	golang.org/x/sync v0.19.0 // indirect
)

replace github.com/lopolopen/shoot => /repo
