module github.com/lopolopen/shoot/verifharness

go 1.24.0

toolchain go1.24.6

require (
	github.com/lopolopen/shoot v0.0.0
	golang.org/x/tools v0.41.0
)

replace github.com/lopolopen/shoot => /repo
